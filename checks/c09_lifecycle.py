"""C09 — lifecycle automaton: legal transitions only, Hayflick bound, absorbing end states, no hang.

Two observers on the real Telomere: the on_phase_change callback stream (every hop the object
announces) and get_phase()/get_status()/get_statistics() polled around every call. A reference
relation (from the statement) judges every hop per operation; a virtual clock (integer-millisecond
model, sub-second to many-day jumps) drives the time limits; the instance's locks are wrapped in
DetectingLocks, so a call that can never return is decided at the lock (no timeout) — also after a
user callback raised; an icontract invariant keeps the length in [0, max]. Sessions run silent and
verbose, with / without / with raising callbacks, as twins sharing one process, as 20 000+-operation
histories, and are replayed without the read-only calls / with the other verbosity (differential).

Round 4: the process time zone is switched per session (fixed offsets west / east of UTC and zones whose local clock steps back),
public settings are re-assigned mid-session (the obligation follows the current value), settings / costs come as non-bool falsy /
truthy values, bools, floats and Fractions, handlers raise a range of exception types or are falsy callables, lifecycles are duplicated
(copy / deepcopy / pickle) and the session continues on the duplicate, every public method is called in every calling form, verbose
output goes to a strict UTF-8 stream, locks the object replaces are re-wrapped at the assignment (rv/c09_locks.py), and a small
sweep runs in a child interpreter started with -O.
"""
import contextlib
import copy
import inspect
import io
import json
import os
import pickle
import subprocess
import sys
import time as _time
from datetime import timedelta
from fractions import Fraction

from rv import core, sched
from rv.c09_locks import LockGuard, QuickDetectingLock
from rv.locks import WouldHang
from rv.vclock import VClock, patched

# naive local datetimes are subtracted by the code under test: keep multi-day virtual jumps free of DST steps
os.environ["TZ"] = "UTC"
if hasattr(_time, "tzset"):
    _time.tzset()

PID = "C09"
LEVEL = "exploration"
TECHNIQUE = ("runtime monitoring: phase-change callback stream + polled state judged against the legal-transition relation per operation, "
             "virtual clock (ms grid), DetectingLock hang oracle (also after raising user callbacks), icontract length invariant, "
             "differential replays (no read-only calls / other verbosity), twin instances, long histories, per-session process time zone (tzset), "
             "mid-session re-configuration, duplicates, lock guard re-wrapping replaced locks, -O child interpreter")
RULE = ("configs: max_operations 1..12, error_threshold 1..4, renewal on/off, lifetime {None,1h}, idle {None,5min}; sequences over "
        "{start, tick(0|1|2|5), record_error, heartbeat, check_timeouts, renew(None|0|1|3, reset_errors), trigger_apoptosis, terminate, reset, "
        "advance clock (1min|6min|61min)}: depth <= 3 (quick: 1/8 slice per run, rotated by seed) / <= 4 (thorough: 1/4 slice per run, rotated by seed) swept on a config grid, each also without a leading start(); depth 5-7 sampled; "
        "sampled sessions additionally vary: verbose mode (stdout to a sink), callbacks both/phase-only/none/raising (on chosen target phases, on_senescence), "
        "extreme / fractional / non-finite costs and amounts, lifetime {3.6 s .. 48 h, 0} and idle {0.3 s .. 3 d, 0} limits with advances exactly on / 1 ms around the limit, "
        "whole days (+ remainder below the limit), 30 and 400 days; twin instances (one possibly default-constructed) used alternately; "
        "2 (quick) / 6 (thorough) sessions of > 20 000 operations on one instance; a quarter of the sampled sessions replayed without polling and with the other verbosity; "
        "round 4: process time zone per session (UTC, fixed offsets west/east, zones whose local clock steps back within the session; idle-focused scenarios with every stamping operation as last activity); "
        "public settings (allow_renewal, silent, error_threshold, max_operations >= current length, max_lifetime, idle_timeout, handlers, class thresholds) re-assigned mid-session; "
        "non-bool falsy/truthy flags, bool/float/Fraction numbers; handler exception types incl. a BaseException; falsy-callable handlers; every calling form (defaults, keywords, positional constructor); "
        "copy/deepcopy/pickle mid-session (continue on the duplicate); hostile apoptosis reasons with verbose output on a strict UTF-8 stream; locks re-wrapped when the object replaces them; "
        "depth-2 sweep + 400 sampled sessions in a child interpreter started with -O; "
        "non-trivial = visits >= 3 phases; distinct = (phase trace, return-value trace)")
ASSUMPTIONS = ["non-negative tick costs and renewal amounts", "settings follow their CURRENT value: allow_renewal / silent by truthiness, limits by the timedelta assigned; "
               "max_operations is only re-assigned to values >= the current remaining length, and the Hayflick bound between two renewals is the largest max_operations in force in between",
               "elapsed time is real (UTC) time: neither the process time zone nor a step of the local clock changes what a time limit means",
               "a falsy callable assigned as a handler need not be called (the statement says nothing about handler delivery); everything else still holds",
               "copy / deepcopy / pickle of a lifecycle may be unsupported (raise); where one succeeds the duplicate starts in the original's phase and length and obeys the same obligations", "reset() re-creates the lifecycle: absorbing-ness of TERMINATED is judged between resets",
               "TERMINATED->TERMINATED / APOPTOTIC->APOPTOTIC announcements are not moves; renew in APOPTOTIC may return True if the phase does not change",
               "idle time is measured from the latest start/tick/heartbeat/renew",
               "a time limit is reached when elapsed >= limit; a limit of 0 / None is 'off' (no obligation)",
               "an exception raised by the user's on_phase_change / on_senescence handler may propagate out of the lifecycle call; what is judged is the state "
               "afterwards (hops legal, limits enforced, length in range) and that later calls return",
               "Hayflick bound counts ticks of cost >= 1; without a phase-change callback a call's hops are judged as a composition of legal hops"]

OPS = [("start",), ("tick", 1), ("tick", 0), ("tick", 2), ("tick", 5), ("record_error",), ("heartbeat",), ("check_timeouts",),
       ("renew", None, True), ("renew", 1, False), ("renew", 3, True), ("renew", 0, False),
       ("trigger_apoptosis",), ("terminate",), ("reset",), ("advance", 60.0), ("advance", 360.0), ("advance", 3660.0)]
OPS_W = [2, 8, 1, 2, 1, 4, 1, 3, 2, 1, 1, 1, 1, 1, 1, 1, 1, 1]
# arithmetic-boundary arguments (class: extreme / fractional / non-finite values); all non-negative
XOPS = [("tick", 10 ** 18), ("tick", 2 ** 53 + 1), ("tick", 0.5), ("tick", 1.0), ("tick", float("inf")), ("tick", float("nan")),
        ("tick", 1e-9), ("tick", 0.1 + 0.2), ("tick", 5000), ("renew", 2 ** 60, True), ("renew", 0.5, False), ("renew", 10 ** 6, False),
        ("renew", float("inf"), True), ("tick", True)]
SWEEP_CFG = [(mo, et, ren, life, idle) for mo in (1, 2, 3, 10) for et in (1, 2) for ren in (True, False)
             for (life, idle) in ((None, None), (1.0, 5.0))]
DAY_MS = 86_400_000
LIFE_X = [None, None, 1.0, 0.001, 0.5, 24.0, 30.0, 48.0, 0]          # hours
IDLE_X = [None, 5.0, 5.0, 0.005, 0.5, 30.0, 1440.0, 1500.0, 4320.0, 0]  # minutes
LONG_R = {"quick": (3, 1004), "thorough": (3, 1004, 2005, 3006, 4007, 5008)}
LONG_OPS = {"quick": 24000, "thorough": 30000}




class InvariantBroken(Exception):
    pass


class HandlerBoom(Exception):
    """Raised by the workload's own on_phase_change / on_senescence handlers."""


class HandlerAbort(BaseException):
    """A handler failure that is not an Exception (what a cancelled / interrupted handler looks like)."""


# exception types a user's handler may raise (a library-side `except <Type>` must not change the lifecycle's obligations)
EXC_TYPES = {"HandlerBoom": HandlerBoom, "TypeError": TypeError, "TimeoutError": TimeoutError, "KeyError": KeyError,
             "AssertionError": AssertionError, "OSError": OSError, "ValueError": ValueError, "RuntimeError": RuntimeError,
             "AttributeError": AttributeError, "HandlerAbort": HandlerAbort}


class FalsyFlag:
    """Duck-typed 'false' setting (what a numpy.bool_(False) or a config wrapper looks like)."""

    def __bool__(self):
        return False

    def __repr__(self):
        return "FalsyFlag()"


class TruthyFlag:
    def __bool__(self):
        return True

    def __repr__(self):
        return "TruthyFlag()"


class FalsyCallable:
    """A handler object that is callable but falsy (a callable collection of listeners that happens to be empty-looking)."""

    def __init__(self, fn):
        self.fn = fn

    def __call__(self, *a, **k):
        return self.fn(*a, **k)

    def __len__(self):
        return 0

    def __repr__(self):
        return "FalsyCallable()"


class StrSub(str):
    pass


FALSY = [0, None, "", 0.0, FalsyFlag(), (), Fraction(0), False]
TRUTHY = [1, "no", 2.5, TruthyFlag(), (0,), Fraction(1, 3), True]
# POSIX TZ strings (no tzdata needed). Fixed offsets: the local clock never steps; west of Greenwich utcnow() lies in the local future.
ZONES_WEST = ["EST5", "PST8", "AZOT1", "HST10", "XWW12", "NST3:30"]
ZONES_EAST = ["JST-9", "IST-5:30", "XEE-14", "CET-1"]


def _utc_ts(y, mo, d, h, mi=0):
    import calendar
    return float(calendar.timegm((y, mo, d, h, mi, 0)))


# zones with daylight saving + the UTC instant at which their local clock steps BACK by one hour
ZONES_DST = [("EST5EDT,M3.2.0,M11.1.0", _utc_ts(2023, 11, 5, 6)), ("CET-1CEST,M3.5.0,M10.5.0/3", _utc_ts(2023, 10, 29, 1)),
             ("AEST-10AEDT,M10.1.0,M4.1.0/3", _utc_ts(2024, 4, 6, 16)), ("PST8PDT,M3.2.0,M11.1.0", _utc_ts(2024, 11, 3, 9))]
HOSTILE = ["a\ud800b", "nul\x00byte", "{0}{}%s%(x)d\n\r", "(.*)[+?^$|\\", "", "x" * 300, StrSub("sub"), "\U0001f9ec\u200d"]
# every calling form of the operations (defaults, keywords, positionals) + hostile / default apoptosis reasons
KOPS = [("tick",), ("tick",), ("tick", 1, "kw"), ("tick", 2, "kw"), ("renew",), ("renew",), ("renew", None, True, "kw"), ("renew", 2, False, "kw"),
        ("renew", 1, True, "pos"), ("renew", 3, True, "amount-only"), ("renew", None, False, "reset-only"),
        ("trigger_apoptosis", HOSTILE[0]), ("trigger_apoptosis", HOSTILE[1], "kw"), ("trigger_apoptosis", HOSTILE[2]), ("trigger_apoptosis", HOSTILE[3], "kw"),
        ("trigger_apoptosis", HOSTILE[4]), ("trigger_apoptosis", HOSTILE[5]), ("trigger_apoptosis", HOSTILE[6], "kw"), ("trigger_apoptosis", HOSTILE[7]),
        ("reads",), ("reads",), ("tick", Fraction(1, 2)), ("tick", Fraction(3, 1)), ("renew", Fraction(5, 2), False), ("tick", False), ("renew", True, True)]
# public settings re-assigned mid-session
SET_OPS = ([("set", "allow_renewal", v) for v in FALSY + TRUTHY] + [("set", "allow_renewal", False)] * 4 + [("set", "allow_renewal", True)] * 4 +
           [("set", "silent", v) for v in (True, False, 0, 1, "", "quiet", None)] +
           [("set", "error_threshold", v) for v in (1, 2, 3, 4, 0, True, 2.5, 10 ** 9)] +
           [("set_max", how) for how in ("double", "plus1", "to_len", "same", "float", "big")] +
           [("set", "max_lifetime", v) for v in (None, timedelta(0), timedelta(hours=1), timedelta(seconds=3, milliseconds=600), timedelta(days=2))] +
           [("set", "idle_timeout", v) for v in (None, timedelta(0), timedelta(minutes=5), timedelta(milliseconds=300), timedelta(days=1, hours=1))] +
           [("set_cb", w, m) for w in ("on_phase_change", "on_senescence") for m in ("none", "rec", "rec", "falsy")] +
           [("set", "SENESCENCE_THRESHOLD", v) for v in (0, 0.1, 0.5)] + [("set", "ERROR_SENESCENCE_RATE", v) for v in (0.5, 1.0, 2)] +
           [("set", "WARNING_THRESHOLD", v) for v in (0.2, 0.9)])
DUP_OPS = [("dup", "copy"), ("dup", "copy"), ("dup", "deepcopy"), ("dup", "pickle")]
META = ("set", "set_max", "set_cb", "dup", "reads")


class _NullRaw(io.RawIOBase):
    def writable(self):
        return True

    def write(self, b):
        return len(b)


# verbose lifecycles print: stdout is a STRICT UTF-8 text stream for the whole session (a lone surrogate raises there, it would not in StringIO)
_SINK = io.TextIOWrapper(io.BufferedWriter(_NullRaw()), encoding="utf-8", errors="strict", write_through=True)
_XIDS = frozenset(id(x) for x in XOPS)
_CALLED = set()
_INV = {"n": 0}
_Monitored = None


def _length_of(self):
    # public accessor through the base class (bypasses the contract wrappers; private field names are not relied upon)
    from operon_ai.state.telomere import Telomere
    return Telomere.get_statistics(self)["telomere_length"]


def _length_in_range(self):
    _INV["n"] += 1
    return 0 <= _length_of(self) <= self.max_operations


def monitored_class():
    global _Monitored
    if _Monitored is None:
        import icontract
        from operon_ai.state.telomere import Telomere

        class MonitoredTelomere(Telomere):
            pass
        _Monitored = icontract.invariant(_length_in_range, error=lambda self: InvariantBroken(
            "length %r outside [0,%r]" % (_length_of(self), self.max_operations)))(MonitoredTelomere)
    return _Monitored


def sweep_total(depth):
    return sum(len(OPS) ** d for d in range(1, depth + 1))


def decode(idx, depth):
    for d in range(1, depth + 1):
        k = len(OPS) ** d
        if idx < k:
            out = []
            for _ in range(d):
                idx, r = divmod(idx, len(OPS))
                out.append(OPS[r])
            return out
        idx -= k
    raise IndexError


def plan(tier):
    depth = 3 if tier == "quick" else 4
    nsweep = len(SWEEP_CFG) * sweep_total(depth) // (8 if tier == "quick" else 4) * 2
    extra = 9000 if tier == "quick" else 300000
    q = tier == "quick"
    return {"cases": nsweep + extra, "shards": 8 if tier == "quick" else 14, "min_nontrivial": 300,
            "timeout": 1500 if tier == "quick" else 6000,   # generous: the machine may be shared (never a verdict)
            "require": {"calls": 50000, "hops_judged": 10000, "ticks_in_terminal_phase": 1000, "unstarted_first_ticks": 500,
                        "timeouts_forced": 40, "error_limit_forced": 500, "renewals_refused": 500, "lock_acquisitions": 50000,
                        "invariant_evaluations": 100000, "thread_schedules": 1000, "thread_outcomes_judged": 1000, "status_reads_from_callbacks": 5000,
                        "time_scenarios": 200,
                        # round 3
                        "timescale_scenarios": 150, "day_jump_timeouts_forced": 10, "subsecond_timeouts_forced": 5, "boundary_timeouts_forced": 3,
                        "verbose_sessions": 500, "no_callback_sessions": 100, "handler_raised_calls": 100, "calls_after_handler_raised": 100,
                        "extreme_argument_calls": 200, "twin_sessions": 100, "default_constructed_sessions": 10,
                        "replays_without_reads": 200, "replays_other_verbosity": 200,
                        "long_session_calls": 8000 if q else 30000, "max:calls_on_one_instance": 20000,
                        # round 4
                        "nonutc_zone_sessions": 300, "timeouts_forced_in_nonutc_zone": 60, "idle_limit_forced_in_nonutc_zone_after:heartbeat": 20,
                        "idle_limit_forced_in_nonutc_zone_after:tick": 20, "idle_limit_forced_in_nonutc_zone_after:start": 5, "local_clock_back_steps": 10,
                        "timeouts_forced_across_local_back_step": 3, "settings_reassigned": 300, "handlers_reassigned": 50,
                        "nonbool_renewal_flag_sessions": 100, "nonbool_falsy_renewals_refused": 40, "handler_exception_type_sessions": 30,
                        "calling_form_calls": 200, "duplicates_continued": 20, "duplicates_unsupported": 0,
                        "optimized_interpreter_calls": 3000}}


def child_probe():
    """Runs in a child interpreter started with -O (assert statements compiled away, icontract switched off): the refusal
    obligations must not rest on an assert. A depth-2 sweep over a few configurations + a few hundred sampled sessions."""
    seed = int(os.environ.get("C09_CHILD_SEED", "0") or 0)
    ctx = core.Ctx(PID, "quick", seed)
    cfgs = [(3, 2, True, None, None), (2, 1, False, 1.0, 5.0), (1, 1, 0, None, None), (10, 2, None, 1.0, 5.0), (2, 2, "", None, None), (2, 1, 1, None, 5.0)]
    n = 0
    for ci, cfg in enumerate(cfgs):
        for idx in range(sweep_total(2)):
            for lead in (True, False):
                seq = decode(idx, 2)
                ctx.case = ["python -O", ci, idx, lead]
                drive(ctx, n, cfg, ([("start",)] + seq) if lead else seq, dict(BASE_OPTS, silent=(n % 4 != 0)))
                n += 1
    for k in range(400):
        rng = ctx.rng("child", k)
        cfg = (rng.randint(1, 12), rng.randint(1, 4), rng.choice([True, False, 0, None, 1]), rng.choice([None, 1.0]), rng.choice([None, 5.0]))
        seq = rng.choices(OPS + KOPS[:11], weights=OPS_W + [1] * 11, k=rng.randint(4, 9))
        ctx.case = ["python -O", "sampled", k]
        drive(ctx, n, cfg, seq, random_opts(rng))
        n += 1
    out = ctx.dump()
    out["optimize"] = sys.flags.optimize
    out["sessions"] = n
    sys.__stdout__.write("\nC09-CHILD-RESULT " + json.dumps(out) + "\n")
    sys.__stdout__.flush()


def extra_parent(ctx):
    """Parent-side work while the shards run: the -O child. A child that cannot be started / does not finish is INCONCLUSIVE."""
    env = dict(os.environ, C09_CHILD_SEED=str(ctx.seed))
    try:
        p = subprocess.run([sys.executable, "-O", "-B", "-c", "import checks.c09_lifecycle as m; m.child_probe()"], cwd=core.VERIF, env=env,
                           capture_output=True, text=True, timeout=900)
    except (OSError, subprocess.TimeoutExpired) as e:
        ctx.inconclusive("the -O child interpreter did not finish: %r" % (e,))
        return
    lines = [ln for ln in p.stdout.splitlines() if ln.startswith("C09-CHILD-RESULT ")]
    if p.returncode != 0 or not lines:
        ctx.inconclusive("the -O child interpreter failed (rc=%s): %s" % (p.returncode, (p.stderr or p.stdout)[-800:]))
        return
    part = json.loads(lines[-1][len("C09-CHILD-RESULT "):])
    if part.get("optimize", 0) < 1:
        ctx.inconclusive("the child interpreter did not run optimized")
        return
    ctx.counters["optimized_interpreter_calls"] = part["counters"].get("calls", 0)
    ctx.counters["optimized_interpreter_sessions"] = part.get("sessions", 0)
    ctx.counters["optimized_interpreter_renewals_refused"] = part["counters"].get("renewals_refused", 0)
    for v in part["violations"]:
        ctx.violations.append(dict(v, what=v["what"] + " [in a child interpreter started with -O]"))
    for k, c in part["violation_counts"].items():
        ctx.violation_counts[k] = ctx.violation_counts.get(k, 0) + c


def teardown_shard(ctx):
    """Informational: which public methods / keyword parameters of the anchored class this shard never called."""
    from operon_ai.state.telomere import Telomere
    pub = sorted(n for n in dir(Telomere) if not n.startswith("_") and callable(getattr(Telomere, n)))
    ctx.maxc("public_methods", len(pub))
    never = [n for n in pub if n not in _CALLED]
    kw_never = []
    for m in pub:
        try:
            params = [q for q in inspect.signature(getattr(Telomere, m)).parameters if q != "self"]
        except (TypeError, ValueError):
            continue
        for q in params:
            if not any(c.startswith(m + "(") and (q + "=") in c for c in _CALLED):
                kw_never.append("%s(%s=)" % (m, q))
    ctx.maxc("public_methods_never_called_by_some_shard", len(never))
    ctx.maxc("keyword_parameters_never_passed_by_some_shard", len(kw_never))
    for name in never + kw_never:
        ctx.count("never_called:%s" % name)


def run_case(ctx, n):
    depth = 3 if ctx.tier == "quick" else 4
    per = sweep_total(depth)
    div = 8 if ctx.tier == "quick" else 4
    nsweep = len(SWEEP_CFG) * per // div * 2
    if n < nsweep:
        half, k = divmod(n, nsweep // 2)
        ci, j = divmod(k, per // div)
        ci %= len(SWEEP_CFG)
        idx = (j * div + (ctx.seed + ci) % div) % per
        seq = decode(idx, depth)
        if half == 0:
            seq = [("start",)] + seq
        # a fifth of the swept sequences run verbosely (the logging branches are different code); a third of the sweep over the
        # configurations with time limits runs in a process zone away from UTC (fixed offset, west and east)
        o = dict(BASE_OPTS, silent=(n % 5 != 3))
        if SWEEP_CFG[ci][3] is not None and n % 3 == 1:
            zones = ZONES_WEST + ZONES_EAST
            o["tz"] = (zones[(n // 3) % len(zones)], None)
        return drive(ctx, n, SWEEP_CFG[ci], seq, o)
    rng = ctx.rng(n)
    r = n - nsweep
    if r in LONG_R[ctx.tier]:
        return long_case(ctx, n, rng)
    if n % (300 if ctx.tier == "quick" else 3000) == 5:
        return thread_case(ctx, n, rng)
    cfg = (rng.randint(1, 12), rng.randint(1, 4), rng.random() < 0.7,
           rng.choice([None, None, 1.0]), rng.choice([None, None, 5.0]))
    L = rng.randint(5, 7) if rng.random() < 0.8 else rng.randint(8, 30)
    seq = rng.choices(OPS, weights=OPS_W, k=L)
    if rng.random() < 0.6:
        seq = [("start",)] + seq
    orng = ctx.rng("opts", n)
    opts = random_opts(orng)
    if n % 4 == 2:
        if (n // 4) % 2 == 0:
            # time scenario: limits configured, sequences made of the time-relevant operations (started or not)
            ctx.count("time_scenarios")
            cfg = (cfg[0], cfg[1], cfg[2], rng.choice([1.0, 1.0, None]), rng.choice([5.0, 5.0, None]))
            topS = [("heartbeat",), ("check_timeouts",), ("advance", 60.0), ("advance", 360.0), ("advance", 3660.0), ("tick", 1), ("start",),
                    ("renew", None, True), ("reset",), ("record_error",)]
            seq = rng.choices(topS, weights=[3, 4, 2, 4, 3, 2, 1, 1, 1, 1], k=rng.randint(3, 8))
        else:
            ctx.count("timescale_scenarios")
            cfg, seq = timescale_scenario(rng, cfg) if rng.random() < 0.6 else idle_focus_scenario(rng, cfg)
    elif orng.random() < 0.25:
        # arithmetic-boundary arguments mixed into the sequence
        seq = list(seq)
        for _ in range(orng.randint(1, 3)):
            seq.insert(orng.randint(0, len(seq)), orng.choice(XOPS))
    cfg, seq, opts = round4_variation(ctx.rng("r4", n), cfg, list(seq), opts, timed=(n % 4 == 2))
    if orng.random() < 0.12:
        return twin_case(ctx, n, cfg, seq, opts, orng)
    ok = drive(ctx, n, cfg, seq, opts)
    if ok and orng.random() < 0.25:
        differential(ctx, n, cfg, seq, opts, ok)


BASE_OPTS = {"silent": True, "callbacks": "both", "raise_on": frozenset(), "raise_sen": False, "ctor": "full", "exc": "HandlerBoom", "tz": None}


def round4_variation(vr, cfg, seq, opts, timed):
    """What round 3 still kept constant: the process time zone, the settings after construction, the TYPES of settings and
    arguments, the calling forms, the handler's exception type / truthiness, duplication of the object."""
    max_ops, err_th, renewal, life, idle = cfg
    # ---- process time zone (time scenarios: half of them; other sessions: a tenth)
    zr = vr.random()
    if timed:
        if zr < 0.22:
            opts["tz"] = (vr.choice(ZONES_WEST), None)
        elif zr < 0.42:
            opts["tz"] = (vr.choice(ZONES_EAST), None)
        elif zr < 0.57:
            # a zone whose local clock steps back one hour, the session starting 0-90 minutes (or a few days) before the step
            z, back = vr.choice(ZONES_DST)
            lead = vr.choice([vr.randint(0, 5400), vr.randint(0, 5400), vr.randint(0, 3 * 86400)])
            opts["tz"] = (z, back - lead)
    elif zr < 0.1:
        opts["tz"] = (vr.choice(ZONES_WEST + ZONES_EAST), None)
    if timed and opts.get("tz") and vr.random() < 0.6:
        # every stamping operation gets its turn as the LAST activity before an idle period (each one reads the clock on its own)
        adv = [i for i, o in enumerate(seq) if o[0] in ("advance", "advance_ms")]
        if adv:
            seq.insert(vr.choice(adv), vr.choice([("heartbeat",), ("heartbeat",), ("tick", 0), ("tick",), ("start",)]))
    # ---- value types of the settings
    if vr.random() < 0.2:
        renewal = vr.choice(FALSY if not renewal else TRUTHY) if vr.random() < 0.5 else vr.choice(FALSY + TRUTHY)
    if vr.random() < 0.1:
        max_ops = vr.choice([True, float(max_ops), Fraction(2 * max_ops + 1, 2), max_ops])
        err_th = vr.choice([True, err_th + 0.5, Fraction(err_th), err_th])
        if life:
            life = vr.choice([True, 1, life])
        if idle:
            idle = vr.choice([True, 5, idle])
    if vr.random() < 0.1:
        opts["silent"] = vr.choice([0, 1, "", "quiet", None])
    if vr.random() < 0.05 and opts["ctor"] == "full":
        opts["ctor"] = "positional"
    # ---- handlers: falsy callables; exception types
    if opts["callbacks"] != "none" and vr.random() < 0.06:
        opts["callbacks"] = "falsy"
    if (opts["raise_on"] or opts["raise_sen"]) and vr.random() < 0.6:
        opts["exc"] = vr.choice(sorted(EXC_TYPES))
    # ---- settings re-assigned mid-session, calling forms, duplicates
    if vr.random() < 0.3:
        for _ in range(vr.randint(1, 3)):
            seq.insert(vr.randint(0, len(seq)), vr.choice(SET_OPS))
    if vr.random() < 0.25:
        for _ in range(vr.randint(1, 3)):
            seq.insert(vr.randint(0, len(seq)), vr.choice(KOPS))
    if vr.random() < 0.08:
        seq.insert(vr.randint(0, len(seq)), vr.choice(DUP_OPS))
    return (max_ops, err_th, renewal, life, idle), seq, opts


def random_opts(orng):
    o = dict(BASE_OPTS)
    o["silent"] = orng.random() >= 0.3
    x = orng.random()
    o["callbacks"] = "none" if x < 0.12 else ("phase" if x < 0.2 else "both")
    if o["callbacks"] != "none" and orng.random() < 0.2:
        targets = ["active", "senescent", "apoptotic", "terminated"]
        k = orng.choice([1, 1, 1, 2, 4])
        o["raise_on"] = frozenset(orng.sample(targets, k)) if orng.random() < 0.8 else frozenset()
        o["raise_sen"] = o["callbacks"] == "both" and (not o["raise_on"] or orng.random() < 0.3)
        if not o["raise_on"] and not o["raise_sen"]:
            o["raise_on"] = frozenset(["terminated"])
    return o


def _limit_ms(life, idle):
    out = []
    if life:
        out.append(timedelta(hours=life) // timedelta(milliseconds=1))
    if idle:
        out.append(timedelta(minutes=idle) // timedelta(milliseconds=1))
    return out


def timescale_scenario(rng, cfg):
    """Limits from 0.3 s to 3 days (or 0 = off); advances exactly on the limit, 1 ms around it, whole days plus a remainder below
    the limit, months, and sub-second steps."""
    life = rng.choice(LIFE_X)
    idle = rng.choice(IDLE_X)
    lims = _limit_ms(life, idle) or [300_000]
    adv = []
    for L in lims:
        adv += [L, L, L - 1, L + 1, DAY_MS + L - 1, DAY_MS + L, rng.randint(1, 3) * DAY_MS + rng.randrange(0, L),
                rng.randint(1, 3) * DAY_MS + rng.randrange(0, min(L, DAY_MS)), max(1, L // 2), max(1, L // 3)]
    adv += [DAY_MS, DAY_MS, 2 * DAY_MS, 3 * DAY_MS, 30 * DAY_MS, 400 * DAY_MS, DAY_MS + 1, DAY_MS - 1, 100, 1, 25 * 3_600_000]
    ops = [("heartbeat",), ("check_timeouts",), ("tick", 1), ("start",), ("renew", None, True), ("reset",), ("record_error",), ("tick", 0)]
    w = [3, 7, 3, 2, 1, 1, 1, 1]
    seq = []
    if rng.random() < 0.7:
        seq.append(rng.choice([("start",), ("tick", 1), ("tick", 1), ("record_error",)]))
    for _ in range(rng.randint(2, 5)):
        if rng.random() < 0.3:
            seq.append(rng.choices(ops, weights=w)[0])
        seq.append(("advance_ms", rng.choice(adv)))
        if rng.random() < 0.85:
            seq.append(("check_timeouts",))
        if rng.random() < 0.4:
            seq.append(rng.choices(ops, weights=w)[0])
    return (cfg[0], max(cfg[1], 2), cfg[2], life, idle), seq


def idle_focus_scenario(rng, cfg):
    """The idle limit decides: (a stamping operation - heartbeat / tick / start - as the last activity, an idle period on, just over,
    minutes or hours over the limit, check_timeouts, renewal) repeated; no lifetime limit in the way."""
    idle = rng.choice([5.0, 5.0, 0.005, 0.5, 30.0, 1440.0, 4320.0])
    L = _limit_ms(None, idle)[0]
    seq = [rng.choice([("start",), ("tick", 1), ("tick", 0), ("record_error",)])]
    for _ in range(rng.randint(1, 3)):
        pre = rng.choice([0, 1, max(1, L // 2), L - 1])
        if pre:
            seq.append(("advance_ms", pre))
        seq.append(rng.choice([("heartbeat",), ("heartbeat",), ("heartbeat",), ("tick", 0), ("tick",), ("tick", 1, "kw")]))
        if rng.random() < 0.3:
            seq.append(rng.choice([("reads",), ("set", "silent", True), ("check_timeouts",), ("set_cb", "on_senescence", "rec")]))
        seq.append(("advance_ms", rng.choice([L, L + 1, L + rng.randrange(1, 3_600_000), L + rng.randrange(3_600_000, 14 * 3_600_000), 2 * L, L + 3_600_000])))
        seq.append(("check_timeouts",))
        seq.append(rng.choice([("renew", None, True), ("renew",), ("reset",), ("renew", 2, False)]))
    return (max(cfg[0], 4), max(cfg[1], 2), True, rng.choice([None, None, None, 10000.0]), idle), seq


def allowed_hops(op):
    N, A, S, P, T = "nascent", "active", "senescent", "apoptotic", "terminated"
    if op == "start":
        return {(N, A)}
    if op in ("tick", "record_error"):
        return {(N, A), (A, S)}
    if op == "check_timeouts":
        return {(A, S)}
    if op == "renew":
        return {(S, A)}
    if op == "trigger_apoptosis":
        return {(N, P), (A, P), (S, P), (P, P)}
    if op == "terminate":
        return {(N, T), (A, T), (S, T), (P, T), (T, T)}
    if op == "reset":
        return {(x, N) for x in (N, A, S, P, T)}
    return set()


def composed_hops(op):
    """What an observer without the callback stream can see of one call: a legal hop or a chain of legal hops."""
    ok = set(allowed_hops(op))
    for _ in range(3):
        ok |= {(a, d) for (a, b) in ok for (c, d) in ok if b == c}
    return ok


class MsClock:
    """Virtual time kept as an integer number of milliseconds (exact model arithmetic; one float rounding per instant)."""

    def __init__(self, base=1_700_000_000.0):
        self.v = VClock(base=float(base))
        self.ms = 0

    def advance(self, ms):
        assert ms >= 0
        self.ms += int(ms)
        self.v.offset = self.ms / 1000.0

    def utc_offset(self):
        """Offset of the process's LOCAL clock at the virtual instant (seconds east of UTC)."""
        return _time.localtime(self.v.base + self.ms / 1000.0).tm_gmtoff


@contextlib.contextmanager
def local_zone(tz):
    """Switch the process time zone for one session (shards run their cases one after the other); always restored to UTC."""
    if not tz or not hasattr(_time, "tzset"):
        yield
        return
    os.environ["TZ"] = tz
    _time.tzset()
    try:
        yield
    finally:
        os.environ["TZ"] = "UTC"
        _time.tzset()


def _clock_for(opts):
    tz = opts.get("tz")
    return MsClock(tz[1]) if tz and tz[1] is not None else MsClock()


def _adv_ms(op):
    return int(op[1]) if op[0] == "advance_ms" else int(round(op[1] * 1000))


def _ctor_defaults():
    from operon_ai.state.telomere import Telomere
    p = inspect.signature(Telomere.__init__).parameters
    return (p["max_operations"].default, p["error_threshold"].default, p["allow_renewal"].default,
            p["max_lifetime_hours"].default, p["idle_timeout_minutes"].default, p["silent"].default)


def _read_all(t):
    """Every read-only public call, in every calling form."""
    _CALLED.update(("get_status", "get_phase", "get_statistics", "is_active", "is_operational", "get_age", "get_events", "get_events(limit=)"))
    t.get_status(); t.get_phase(); t.get_statistics(); t.is_active(); t.is_operational(); t.get_age()
    t.get_events(); t.get_events(3); t.get_events(limit=2); t.get_events(0); repr(t)


class Rig:
    """One real lifecycle + the workload's handlers (record the hop, optionally read the public getters, optionally raise) + the lock
    guard. Applies the operations, also the ones that only re-configure / duplicate the object."""

    def __init__(self, cls, cfg, opts, ctx=None, lock_factory=QuickDetectingLock):
        self.cfg, self.opts, self.ctx = cfg, opts, ctx
        self.hops, self.raised = [], []
        self.t = None
        self.exc = EXC_TYPES[opts.get("exc", "HandlerBoom")]
        self.mode = {"on_phase_change": "none", "on_senescence": "none"}
        max_ops, err_th, renewal, life, idle = cfg
        ctor = opts["ctor"]
        if ctor == "defaults":
            self.t = cls()
        else:
            falsy = opts["callbacks"] == "falsy"
            on_change = self.handler("on_phase_change", "falsy" if falsy else "rec") if opts["callbacks"] in ("both", "phase", "falsy") else None
            on_sen = self.handler("on_senescence", "falsy" if falsy else "rec") if opts["callbacks"] in ("both", "falsy") else None
            if ctor == "positional":
                self.t = cls(max_ops, life, idle, err_th, renewal, on_change, on_sen, opts["silent"])
            else:
                kw = dict(max_operations=max_ops, max_lifetime_hours=life, idle_timeout_minutes=idle, error_threshold=err_th,
                          allow_renewal=renewal, silent=opts["silent"])
                if on_change is not None:
                    kw["on_phase_change"] = on_change
                if on_sen is not None:
                    kw["on_senescence"] = on_sen
                self.t = cls(**kw)
        self.guard = LockGuard(self.t, lock_factory, "Telomere")

    @property
    def stream(self):
        return self.mode["on_phase_change"] == "rec"

    def _boom(self, what):
        e = self.exc(what)
        self.raised.append(e)
        raise e

    def _on_change(self, o, nw, *extra):
        self.hops.append((o.value, nw.value))
        if self.opts.get("reads") and self.t is not None:
            if self.ctx is not None:
                self.ctx.count("status_reads_from_callbacks")
            tt = self.t
            tt.get_status(); tt.get_phase(); tt.get_statistics(); tt.is_active(); tt.is_operational(); tt.get_age()
        if nw.value in self.opts["raise_on"]:
            self._boom("on_phase_change -> %s" % nw.value)

    def _on_sen(self, reason, *extra):
        if self.opts.get("reads") and self.t is not None:
            self.t.get_status()
        if self.opts["raise_sen"]:
            self._boom("on_senescence")

    def handler(self, which, mode):
        self.mode[which] = mode
        if mode == "none":
            return None
        fn = self._on_change if which == "on_phase_change" else self._on_sen
        return FalsyCallable(fn) if mode == "falsy" else fn

    def is_ours(self, e):
        return any(e is x for x in self.raised)

    def meta(self, op):
        """Re-configuration / duplication / read-only operations. Returns (token, detail)."""
        k, t = op[0], self.t
        if k == "set":
            setattr(t, op[1], op[2])
            return "set", op[2]
        if k == "set_cb":
            setattr(t, op[1], self.handler(op[1], op[2]))
            return "set_cb", op[2]
        if k == "reads":
            _read_all(t)
            return "reads", None
        if k == "set_max":
            ln = t.get_statistics()["telomere_length"]
            cur, how = t.max_operations, op[1]
            new = cur
            if how == "double":
                new = cur * 2
            elif how == "plus1":
                new = cur + 1
            elif how == "big":
                new = cur + 1000
            elif how == "float":
                new = float(cur) if cur < 2 ** 53 else cur
            elif how == "to_len" and ln == ln and ln <= cur:
                new = ln if ln >= 1 else 1
            t.max_operations = new
            return "set_max", new
        if k == "dup":
            try:
                if op[1] == "copy":
                    d = copy.copy(t)
                elif op[1] == "deepcopy":
                    d = copy.deepcopy(t)
                else:
                    d = pickle.loads(pickle.dumps(t))
            except WouldHang:
                raise
            except Exception as e:  # noqa  (duplication is not promised: unsupported is fine)
                return "dup:unsupported", type(e).__name__
            before = _state(t)
            self.t = d
            self.guard.adopt(d)
            return "dup:ok", (before, _state(d))
        raise ValueError(k)


def _call(t, op):
    name = op[0]
    _CALLED.add(name)
    if name == "start":
        return t.start()
    if name == "tick":
        if len(op) == 1:
            _CALLED.add("tick()")
            return t.tick()
        if len(op) > 2:
            _CALLED.add("tick(cost=)")
            return t.tick(cost=op[1])
        return t.tick(op[1])
    if name == "record_error":
        return t.record_error()
    if name == "heartbeat":
        return t.heartbeat()
    if name == "check_timeouts":
        return t.check_timeouts()
    if name == "renew":
        if len(op) == 1:
            _CALLED.add("renew()")
            return t.renew()
        form = op[3] if len(op) > 3 else "mixed"
        if form == "kw":
            _CALLED.add("renew(amount=,reset_errors=)")
            return t.renew(amount=op[1], reset_errors=op[2])
        if form == "pos":
            return t.renew(op[1], op[2])
        if form == "amount-only":
            return t.renew(op[1])
        if form == "reset-only":
            return t.renew(reset_errors=op[2])
        return t.renew(op[1], reset_errors=op[2])
    if name == "trigger_apoptosis":
        if len(op) == 1:
            _CALLED.add("trigger_apoptosis()")
            return t.trigger_apoptosis()
        if len(op) > 2:
            _CALLED.add("trigger_apoptosis(reason=)")
            return t.trigger_apoptosis(reason=op[1])
        return t.trigger_apoptosis(op[1])
    if name == "terminate":
        return t.terminate()
    if name == "reset":
        return t.reset()
    raise ValueError(name)


def _state(t):
    s = t.get_statistics()
    return (t.get_phase().value, s["telomere_length"], s["operations_count"], s["error_count"], s["renewal_count"])


class Session:
    """One lifecycle instance + the reference bookkeeping that judges it, one operation at a time."""

    def __init__(self, ctx, n, cfg, opts, mclock, witness, label="", monitored=True, trace_cap=None):
        self.ctx, self.n, self.cfg, self.opts, self.clk, self.witness, self.label = ctx, n, cfg, opts, mclock, witness, label
        self.max_ops, self.err_th, renewal, life, idle = cfg
        self.renewal = bool(renewal)
        self.bound = self.max_ops
        self.life_td = timedelta(hours=life) if life else None
        self.idle_td = timedelta(minutes=idle) if idle else None
        self.trace_cap = trace_cap
        cls = monitored_class() if monitored else __import__("operon_ai.state.telomere", fromlist=["Telomere"]).Telomere
        self.rig = Rig(cls, cfg, opts, ctx)
        self.hops, self.raised = self.rig.hops, self.rig.raised
        self.started_ms = None
        self.activity_ms = None
        self.activity_by = "start"
        self.back_steps = []
        self.true_ticks = 0
        self.phases_seen = {"nascent"}
        self.toks = []
        self.ncalls = 0
        self.boomed = False
        self.dead = False
        self.zone = (opts.get("tz") or (None, None))[0]
        if not opts["silent"] or opts["ctor"] == "defaults":
            ctx.count("verbose_sessions")
        if not self.rig.stream:
            ctx.count("no_callback_sessions")
        if opts["ctor"] == "defaults":
            ctx.count("default_constructed_sessions")
        if self.zone:
            ctx.count("nonutc_zone_sessions")
        if type(renewal) is not bool:
            ctx.count("nonbool_renewal_flag_sessions")
        if opts.get("exc", "HandlerBoom") != "HandlerBoom" and (opts["raise_on"] or opts["raise_sen"]):
            ctx.count("handler_exception_type_sessions")

    @property
    def t(self):
        return self.rig.t

    def viol(self, mech, what):
        self.dead = True
        with contextlib.redirect_stdout(sys.__stdout__):
            self.ctx.violation(mech, what, self.witness)

    def _trace(self, entry):
        tr = self.witness["trace"]
        tr.append(([self.label] + entry) if self.label else entry)
        if self.trace_cap and len(tr) > 2 * self.trace_cap:
            del tr[:-self.trace_cap]
            self.witness["trace_truncated"] = True

    def finish(self):
        g = self.rig.guard
        self.ctx.counters["lock_acquisitions"] = self.ctx.counters.get("lock_acquisitions", 0) + g.acquisitions()
        if g.replaced:
            self.ctx.count("locks_replaced_by_object", g.replaced)
        self.ctx.counters["invariant_evaluations"] = _INV["n"]

    def advance(self, ms):
        """The driver moves the virtual clock; a backward step of the process's local clock is remembered."""
        if self.zone:
            off0 = self.clk.utc_offset()
            self.clk.advance(ms)
            if self.clk.utc_offset() < off0:
                self.back_steps.append(self.clk.ms)
                self.ctx.count("local_clock_back_steps")
        else:
            self.clk.advance(ms)

    def meta(self, op):
        """Operations that re-configure / duplicate / only read: the model follows the CURRENT settings."""
        ctx, k = self.ctx, op[0]
        p0 = self.t.get_phase().value
        try:
            tok, detail = self.rig.meta(op)
        except WouldHang as e:
            self._trace([list(op), "WOULD HANG", p0])
            self.viol("self-deadlock:%s:%s" % (k, p0), "%s in phase %s can never return: %s re-acquired" % (k, p0, e.lock_name))
            return False
        except InvariantBroken as e:
            self._trace([list(op), "INVARIANT", str(e)])
            self.viol("length-out-of-range", "%s: %s" % (k, e))
            return False
        except BaseException as e:
            self._trace([list(op), "RAISED", repr(e)])
            self.viol("raises:%s" % (k if k != "set" else "set:%s" % op[1]), "%s raised %r" % (list(op), e))
            return False
        self.toks.append(tok.split(":")[0])
        self._trace([list(op), tok, detail if k != "dup" else None])
        if k == "set":
            ctx.count("settings_reassigned")
            attr, v = op[1], op[2]
            if attr == "allow_renewal":
                self.renewal = bool(v)
            elif attr == "error_threshold":
                self.err_th = v
            elif attr == "max_lifetime":
                self.life_td = v if v else None
            elif attr == "idle_timeout":
                self.idle_td = v if v else None
        elif k == "set_max":
            ctx.count("settings_reassigned")
            self.max_ops = detail
            if detail > self.bound:
                self.bound = detail
        elif k == "set_cb":
            ctx.count("handlers_reassigned")
        elif k == "dup":
            if tok == "dup:ok":
                ctx.count("duplicates_continued")
                before, after = detail
                if repr(before[:2]) != repr(after[:2]):
                    self.viol("duplicate-differs:%s" % op[1], "the %s of a lifecycle in (phase, length) %r is in %r: the duplicate escapes the original's phase / bound" % (
                        op[1], before[:2], after[:2]))
                    return False
            else:
                ctx.count("duplicates_unsupported")
        self.rig.guard.refresh()
        return True

    def step(self, op):
        """Apply one operation and judge it. Returns False after a violation (the session stops)."""
        if op[0] in META:
            return self.meta(op)
        ctx, t, name = self.ctx, self.t, op[0]
        rig = self.rig
        max_ops, err_th = self.max_ops, self.err_th
        ctx.count("calls")
        self.ncalls += 1
        if self.boomed:
            ctx.count("calls_after_handler_raised")
        if id(op) in _XIDS:
            ctx.count("extreme_argument_calls")
        if len(op) == 1 and name in ("tick", "renew", "trigger_apoptosis") or len(op) > 2 and op[-1] in ("kw", "pos", "amount-only", "reset-only"):
            ctx.count("calling_form_calls")
        p0 = t.get_phase().value
        s0 = t.get_statistics()
        len0 = s0["telomere_length"]
        del self.hops[:]
        ret = None
        boom = False
        try:
            if name == "tick" and p0 == "nascent":
                ctx.count("unstarted_first_ticks")
            ret = _call(t, op)
        except WouldHang as e:
            self._trace([name, "WOULD HANG", p0])
            mech = "tick-before-start-self-deadlock" if (name == "tick" and p0 == "nascent") else "self-deadlock:%s:%s" % (name, p0)
            self.viol(mech, "%s() in phase %s can never return: %s re-acquired at %s while held since %s" % (
                name, p0, e.lock_name, e.second_stack[-2:], e.first_stack[-2:]))
            return False
        except InvariantBroken as e:
            self._trace([name, "INVARIANT", str(e)])
            self.viol("length-out-of-range", "%s: %s" % (name, e))
            return False
        except BaseException as e:
            if not rig.is_ours(e):
                self._trace([name, "RAISED", repr(e)])
                self.viol("raises:%s" % name, "%s raised %r" % (name, e))
                return False
            boom = True
            self.boomed = True
            ctx.count("handler_raised_calls")
        self.toks.append("BOOM" if boom else repr(ret))
        # ---- locks the object replaced / created during the call are wrapped again (decided by shape, not by name)
        rig.guard.refresh()
        # ---- every call returns: a lock still held after the call means the next locking call can never return (probed, decided at the lock)
        if rig.guard.any_locked():
            ctx.count("lock_probes")
            try:
                t.heartbeat()
                self.activity_ms = self.clk.ms
            except WouldHang as e:
                self._trace([list(op), "handler raised" if boom else "ret=%r" % (ret,), p0, "then heartbeat() WOULD HANG"])
                self.viol("hang-after-handler-raised:%s" % name if boom else "hang-after:%s" % name,
                          "after %s() %s the lifecycle's %s is still held (since %s): the next call (heartbeat) can never return" % (
                              name, "let the handler's exception out" if boom else "returned", e.lock_name, e.first_stack[-2:]))
                return False
            except BaseException as e:
                self.viol("raises:heartbeat", "heartbeat raised %r" % (e,))
                return False
        p1 = t.get_phase().value
        s1 = t.get_statistics()
        st = t.get_status()
        if self.opts.get("reads"):
            t.get_events(5); t.is_active(); t.is_operational(); t.get_age(); repr(t); repr(st)
        len1 = s1["telomere_length"]
        self.phases_seen.add(p1)
        self._trace([list(op), "handler raised" if boom else "ret=%r" % (ret,), p0, "->", p1, "len %r->%r" % (len0, len1), list(self.hops)])
        # ---- hop legality: announced hops, plus any silent change
        seen = list(self.hops)
        chain_end = seen[-1][1] if seen else p0
        ok = allowed_hops(name)
        if not seen and p1 != p0:
            seen = [(p0, p1)]
            chain_end = p1
            if not rig.stream:
                ok = composed_hops(name)
        elif seen and (seen[0][0] != p0 or chain_end != p1):
            if name != "reset":
                self.viol("announced-hops-disagree-with-state", "%s: announced %s but phase went %s -> %s" % (name, seen, p0, p1))
                return False
        if name == "reset" and p1 != "nascent" and not boom:
            self.viol("reset-not-nascent", "reset left phase %s" % p1)
            return False
        for (a, b) in seen:
            ctx.count("hops_judged")
            if (a, b) not in ok:
                if a == "terminated" and b != "terminated":
                    mech = "leaves-terminated:%s" % name
                elif a == "nascent" and b == "senescent":
                    mech = "senescence-from-nascent:%s" % name
                else:
                    mech = "illegal-transition:%s:%s->%s" % (name, a, b)
                self.viol(mech, "%s() moved the lifecycle %s -> %s" % (name, a, b))
                return False
        # ---- per-operation obligations
        if not (0 <= len1 <= max_ops) or st.telomere_length != len1:
            self.viol("length-out-of-range", "length %r outside [0,%r] after %s" % (len1, max_ops, name))
            return False
        now = self.clk.ms
        if ("nascent", "active") in seen or (p0 == "nascent" and p1 in ("active", "senescent") and name in ("start", "tick", "record_error")):
            self.started_ms = now
            self.activity_ms = now
            self.activity_by = "start"
        if name == "tick":
            cost = op[1] if len(op) > 1 else 1
            if p0 in ("apoptotic", "terminated"):
                ctx.count("ticks_in_terminal_phase")
                if (not boom and ret is not False) or len1 != len0 or s1["operations_count"] != s0["operations_count"] or p1 != p0:
                    self.viol("terminal-phase-ticks", "tick in %s returned %r, length %r->%r, ops %d->%d" % (
                        p0, ret, len0, len1, s0["operations_count"], s1["operations_count"]))
                    return False
            else:
                self.activity_ms = now
                self.activity_by = "tick"
            if not boom and ret is not (p1 == "active"):
                self.viol("tick-return-value", "tick returned %r but the phase afterwards is %s" % (ret, p1))
                return False
            if not boom and ret is True and cost >= 1:
                self.true_ticks += 1
                if self.true_ticks > self.bound:
                    self.viol("hayflick-bound", "%d ticks reported True since the last renewal with max_operations=%r" % (self.true_ticks, self.bound))
                    return False
            if len1 > len0:
                self.viol("tick-lengthens", "tick(%r) lengthened the telomere %r -> %r" % (cost, len0, len1))
                return False
        elif name == "heartbeat":
            self.activity_ms = now
            self.activity_by = "heartbeat"
        elif name == "renew":
            if boom:
                self.true_ticks = 0
                self.bound = max_ops
                self.activity_ms = now
            elif ret is True:
                if not self.renewal or p0 == "terminated":
                    self.viol("renew-not-refused", "renew succeeded with allow_renewal=%r in phase %s" % (t.allow_renewal, p0))
                    return False
                self.true_ticks = 0
                self.bound = max_ops
                self.activity_ms = now
            else:
                ctx.count("renewals_refused")
                if not self.renewal and type(t.allow_renewal) is not bool:
                    ctx.count("nonbool_falsy_renewals_refused")
                if p1 != p0 or len1 != len0:
                    self.viol("refused-renew-changes-state", "refused renew moved %s->%s / length %r->%r" % (p0, p1, len0, len1))
                    return False
            if (not self.renewal or p0 == "terminated") and (p1 != p0 or len1 != len0):
                self.viol("renew-not-refused", "renew with allow_renewal=%r in phase %s changed the lifecycle (%s->%s, length %r->%r)" % (
                    t.allow_renewal, p0, p0, p1, len0, len1))
                return False
            if len1 < len0:
                self.viol("renew-shortens", "renew shortened the telomere")
                return False
        elif name == "record_error":
            # the limit obliges once an error WAS recorded (a threshold of 0 with no error recorded - the user's handler raised during
            # the auto-start, before the count - is not an exceeded limit)
            if s1["error_count"] >= err_th and s1["error_count"] >= 1:
                ctx.count("error_limit_forced")
                if p1 == "active":
                    self.viol("error-limit-not-enforced", "error_count %d >= threshold %r and still ACTIVE" % (s1["error_count"], err_th))
                    return False
        elif name == "check_timeouts":
            if p0 == "active":
                age = None if self.started_ms is None else timedelta(milliseconds=now - self.started_ms)
                idl = None if self.activity_ms is None else timedelta(milliseconds=now - self.activity_ms)
                aged = self.life_td is not None and age is not None and age >= self.life_td
                idled = self.idle_td is not None and idl is not None and idl >= self.idle_td
                if aged or idled:
                    ctx.count("timeouts_forced")
                    if self.zone:
                        ctx.count("timeouts_forced_in_nonutc_zone")
                        if idled and not aged:
                            ctx.count("idle_limit_forced_in_nonutc_zone_after:%s" % self.activity_by)
                    el = [x for (x, f) in ((age, aged), (idl, idled)) if f]
                    lim = [x for (x, f) in ((self.life_td, aged), (self.idle_td, idled)) if f]
                    if any(x >= timedelta(days=1) for x in el):
                        ctx.count("day_jump_timeouts_forced")
                    if any(x < timedelta(seconds=1) for x in lim):
                        ctx.count("subsecond_timeouts_forced")
                    if any(x == y for x, y in zip(el, lim)):
                        ctx.count("boundary_timeouts_forced")
                    # every limit that was reached had a backward step of the LOCAL clock since its reference stamp?
                    stepped = all(any(b > ref for b in self.back_steps) for (ref, f) in ((self.started_ms, aged), (self.activity_ms, idled)) if f)
                    if stepped:
                        ctx.count("timeouts_forced_across_local_back_step")
                    if p1 == "active":
                        self.viol("time-limit-not-enforced:local-clock-stepped-back" if stepped else "time-limit-not-enforced",
                                  "age/idle limit reached (aged=%s: %s of %s; idle=%s: %s of %s) and still ACTIVE%s" % (
                                      aged, age, self.life_td, idled, idl, self.idle_td,
                                      " [process zone %s; its local clock stepped back in between]" % self.zone if stepped else (" [process zone %s]" % self.zone if self.zone else "")))
                        return False
            if not boom and ret is True and p1 in ("apoptotic", "terminated"):
                self.viol("check-timeouts-return", "check_timeouts returned True in phase %s" % p1)
                return False
        elif name == "reset":
            self.true_ticks = 0
            self.bound = max_ops
            self.started_ms = None
            self.activity_ms = None
        return True


def _witness(cfg, opts, seq=None):
    w = {"config": {"max_operations": cfg[0], "error_threshold": cfg[1], "allow_renewal": cfg[2],
                    "max_lifetime_hours": cfg[3], "idle_timeout_minutes": cfg[4]},
         "options": {"silent": opts["silent"], "callbacks": opts["callbacks"], "handler_raises_on": sorted(opts["raise_on"]),
                     "on_senescence_raises": opts["raise_sen"], "handler_exception_type": opts.get("exc", "HandlerBoom"),
                     "constructor": opts["ctor"], "handlers_read_getters": opts.get("reads", False),
                     "process_time_zone": (opts.get("tz") or ("UTC", None))[0], "clock_base_utc": (opts.get("tz") or (None, None))[1] or 1_700_000_000.0},
         "trace": []}
    if seq is not None:
        w["sequence"] = [list(o) for o in seq]
    return w


def drive(ctx, n, cfg, seq, opts=None):
    """One session; returns the session's (tokens, final state) when no violation was found, else None."""
    import operon_ai.state.telomere as tmod
    opts = dict(opts or BASE_OPTS)
    opts["reads"] = ctx.rng("reads", n).random() < 0.35   # a third of the cases: the application's handlers read the lifecycle's public getters
    witness = _witness(cfg, opts, seq)
    clk = _clock_for(opts)
    # verbose lifecycles print: stdout goes to a (strict UTF-8) sink for the whole session; the process zone is the session's
    with local_zone((opts.get("tz") or (None,))[0]), patched(clk.v, tmod), contextlib.redirect_stdout(_SINK):
        s = Session(ctx, n, cfg, opts, clk, witness)
        for op in seq:
            if op[0] in ("advance", "advance_ms"):
                s.advance(_adv_ms(op))
                witness["trace"].append(["advance_ms", _adv_ms(op)])
                continue
            if not s.step(op):
                return None
        s.finish()
        final = _state(s.t)
        if len(s.phases_seen) >= 3:
            ctx.nontrivial((tuple(x[2] + ">" + x[4] for x in witness["trace"] if len(x) > 4), tuple(s.toks)))
    if n % 6000 == 0:
        ctx.sample(witness)
    return (s.toks, final)


def blind_run(cfg, opts, seq, silent):
    """The same session on the plain class without any read-only call between the operations."""
    import operon_ai.state.telomere as tmod
    clk = _clock_for(opts)
    o = dict(opts, silent=silent, reads=False)
    toks = []
    with local_zone((opts.get("tz") or (None,))[0]), patched(clk.v, tmod), contextlib.redirect_stdout(_SINK):
        rig = Rig(tmod.Telomere, cfg, o)
        for op in seq:
            if op[0] in ("advance", "advance_ms"):
                clk.advance(_adv_ms(op))
                continue
            try:
                if op[0] in META:
                    toks.append(rig.meta(op)[0].split(":")[0])
                else:
                    toks.append(repr(_call(rig.t, op)))
            except WouldHang:
                toks.append("WOULD HANG")
                return toks, None
            except BaseException as e:
                toks.append("BOOM" if rig.is_ours(e) else "RAISED %s" % type(e).__name__)
            rig.guard.refresh()
        return toks, _state(rig.t)


def differential(ctx, n, cfg, seq, opts, primary):
    """Read-only calls and verbosity must not change any outcome: the polled run, the same run without a single read, and that
    run with the other verbosity must agree on every return value and on the final (phase, length, counters)."""
    w = _witness(cfg, dict(opts, reads=False), seq)
    a = blind_run(cfg, opts, seq, opts["silent"])
    ctx.count("replays_without_reads")
    if repr(a) != repr(primary):
        ctx.violation("outcome-depends-on-reads", "with the read-only calls (get_phase/get_status/get_statistics/...) interleaved the session gave %r, without them %r" % (
            primary, a), dict(w, with_reads=primary, without_reads=a))
        return
    b = blind_run(cfg, opts, seq, not opts["silent"])
    ctx.count("replays_other_verbosity")
    if repr(a) != repr(b):
        ctx.violation("outcome-depends-on-verbosity", "silent=%s gave %r, silent=%s gave %r" % (opts["silent"], a, not opts["silent"], b),
                      dict(w, first=a, second=b))


def twin_case(ctx, n, cfg, seq, opts, orng):
    """Two differently configured lifecycles alive in one process, used alternately under one clock; each is judged on its own."""
    import operon_ai.state.telomere as tmod
    ctx.count("twin_sessions")
    opts = dict(opts, reads=False)
    cfg2 = (orng.randint(1, 12), orng.randint(1, 4), not cfg[2] if orng.random() < 0.7 else cfg[2],
            orng.choice([None, 1.0, 0.5]), orng.choice([None, 5.0, 1.0]))
    opts2 = random_opts(orng)
    opts2["reads"] = False
    seq2 = orng.choices(OPS, weights=OPS_W, k=orng.randint(4, 9))
    if orng.random() < 0.25:
        # the second twin is built with no arguments at all (constructor defaults: verbose, no handlers)
        d = _ctor_defaults()
        cfg2 = d[:5]
        opts2 = dict(BASE_OPTS, ctor="defaults", silent=d[5], callbacks="none", reads=False)
        seq2 = orng.choices(OPS + [("tick", 5000), ("tick", 4000)], weights=OPS_W + [6, 6], k=orng.randint(4, 9))
    witness = {"instances": {"A": _witness(cfg, opts, seq), "B": _witness(cfg2, opts2, seq2)}, "trace": []}
    for k in ("A", "B"):
        del witness["instances"][k]["trace"]
    clk = _clock_for(opts)
    opts2["tz"] = opts.get("tz")          # one process, one zone
    with local_zone((opts.get("tz") or (None,))[0]), patched(clk.v, tmod), contextlib.redirect_stdout(_SINK):
        sa = Session(ctx, n, cfg, opts, clk, witness, label="A")
        sb = Session(ctx, n, cfg2, opts2, clk, witness, label="B")
        qa, qb = list(seq), list(seq2)
        while qa or qb:
            s, q = (sa, qa) if (qa and (not qb or orng.random() < 0.5)) else (sb, qb)
            op = q.pop(0)
            if op[0] in ("advance", "advance_ms"):
                sa.advance(_adv_ms(op))
                sb.back_steps = sa.back_steps
                witness["trace"].append(["advance_ms", _adv_ms(op)])
                continue
            if not s.step(op):
                return
        sa.finish(); sb.finish()
        if len(sa.phases_seen) >= 3 or len(sb.phases_seen) >= 3:
            ctx.nontrivial(("twin", tuple(sa.toks), tuple(sb.toks), sorted(sa.phases_seen), sorted(sb.phases_seen)))


def long_case(ctx, n, rng):
    """One instance, > 20 000 operations: many renewal cycles (each bounded by max_operations True unit ticks), errors, time
    limits, occasional resets; then an end state and thousands of further calls that must all be refused."""
    import operon_ai.state.telomere as tmod
    total = LONG_OPS[ctx.tier]
    cfg = (rng.choice([3, 7, 12, 12, 1000]), rng.choice([2, 3, 4]), True, rng.choice([None, 1.0, 30.0]), rng.choice([None, 5.0, 1500.0]))
    opts = dict(BASE_OPTS, silent=rng.random() < 0.5, callbacks=rng.choice(["both", "both", "none"]), reads=False)
    if opts["callbacks"] == "both" and rng.random() < 0.4:
        opts["raise_on"] = frozenset([rng.choice(["senescent", "active"])])
    live = [("tick", 1), ("tick", 0), ("tick", 2), ("record_error",), ("renew", None, True), ("renew", 2, False), ("heartbeat",),
            ("check_timeouts",), ("advance", 60.0), ("advance", 360.0), ("advance_ms", DAY_MS), ("reset",), ("start",)]
    lw = [40, 2, 3, 3, 8, 2, 3, 4, 3, 1, 0.3, 0.05, 1]
    # round 4: settings re-assigned all along, every calling form, duplicates, a non-UTC process zone (fixed or with a backward step)
    live += [("set", "allow_renewal", rng.choice(FALSY)), ("set", "allow_renewal", rng.choice(TRUTHY)), ("set", "silent", rng.choice([True, False, 0, 1])),
             ("set_cb", "on_phase_change", "rec"), ("set_cb", "on_phase_change", "none"), ("set_cb", "on_senescence", rng.choice(["rec", "falsy"])),
             ("set_max", rng.choice(["plus1", "to_len", "same"])), ("set", "error_threshold", rng.choice([1, 2, 5])), ("dup", rng.choice(["copy", "deepcopy", "pickle"])),
             ("tick",), ("renew",), ("tick", 1, "kw"), ("reads",), ("set", "idle_timeout", rng.choice([None, timedelta(minutes=5), timedelta(hours=30)]))]
    lw += [0.3, 1.0, 0.3, 0.2, 0.1, 0.1, 0.05, 0.1, 0.05, 3, 2, 1, 0.2, 0.1]
    zr = rng.random()
    if zr < 0.35:
        opts["tz"] = (rng.choice(ZONES_WEST + ZONES_EAST), None)
    elif zr < 0.5:
        z, back = rng.choice(ZONES_DST)
        opts["tz"] = (z, back - rng.randint(1, 48) * 3600.0)
    end_at = int(total * 0.85)
    ender = rng.choice([("terminate",), ("terminate",), ("trigger_apoptosis",)])
    witness = _witness(cfg, opts)
    witness["sequence"] = "long session: %d operations drawn from %s, %s after %d, then every operation kind" % (total, [list(o) for o in live], list(ender), end_at)
    clk = _clock_for(opts)
    renewals = 0
    with local_zone((opts.get("tz") or (None,))[0]), patched(clk.v, tmod), contextlib.redirect_stdout(_SINK):
        s = Session(ctx, n, cfg, opts, clk, witness, monitored=False, trace_cap=40)
        for i in range(total):
            if i < end_at:
                op = rng.choices(live, weights=lw)[0]
            elif i == end_at:
                op = ender
            else:
                op = rng.choices(OPS[:14] + OPS[15:], k=1)[0]   # everything but reset
            if op[0] in ("advance", "advance_ms"):
                s.advance(_adv_ms(op))
                continue
            ctx.count("long_session_calls")
            if not s.step(op):
                return
            if op[0] == "renew" and s.toks[-1] == "True":
                renewals += 1
            if len(s.toks) > 64:
                del s.toks[:-8]
        s.finish()
        ctx.maxc("long_session_renewals", renewals)
        ctx.maxc("calls_on_one_instance", s.ncalls)
        ctx.nontrivial(("long", sorted(s.phases_seen), renewals > 100, cfg, opts["silent"], opts["callbacks"]))


TOPS = [("tick", 1), ("tick", 2), ("record_error",), ("renew", None, True), ("trigger_apoptosis",), ("terminate",), ("start",), ("check_timeouts",),
        ("reset",), ("heartbeat",)]


def _apply(t, op):
    k = op[0]
    if k == "tick":
        return t.tick(op[1])
    if k == "renew":
        return t.renew(op[1], reset_errors=op[2])
    if k == "trigger_apoptosis":
        return t.trigger_apoptosis("x")
    return getattr(t, k)()


def thread_case(ctx, n, rng):
    """2-3 threads share ONE lifecycle under the line-level scheduler. Every lifecycle method is one critical section, so the
    outcome (return values, phase, length, counters) must be producible by some sequential order of the calls — in particular a
    tick that starts after terminate()/trigger_apoptosis() completed can never shorten or count."""
    from operon_ai.state.telomere import Telomere
    sched.instrument(Telomere)
    max_ops, err_th = rng.choice([3, 6, 10]), rng.choice([1, 2, 4])
    pre = [rng.choice([("start",), ("tick", 1), ("tick", 1), ("record_error",)]) for _ in range(rng.randint(0, 3))]
    nthreads = rng.choice([2, 2, 3])
    threads = [[rng.choice(TOPS) for _ in range(rng.randint(1, 2))] for _ in range(nthreads)]
    if rng.random() < 0.5:
        threads[0] = [("tick", 1)] + threads[0][:1]
        threads[1] = [rng.choice([("terminate",), ("trigger_apoptosis",)])]
    desc = {"max_operations": max_ops, "error_threshold": err_th, "setup": pre, "threads": threads}

    def fresh(wrap):
        t = Telomere(max_operations=max_ops, error_threshold=err_th, silent=True)
        for op in pre:
            _apply(t, op)
        if wrap:
            # a lock the object assigns to itself during the schedule is wrapped at the assignment: the scheduler keeps control
            guards.append(LockGuard(t, sched.SchedLock, "Telomere"))
        return t

    # sequential outcomes: every order-preserving merge on fresh objects
    outcomes = set()
    guards = []

    def merges(pos):
        if all(pos[i] == len(threads[i]) for i in range(nthreads)):
            yield []
            return
        for i in range(nthreads):
            if pos[i] < len(threads[i]):
                pos[i] += 1
                for rest in merges(pos):
                    yield [i] + rest
                pos[i] -= 1
    for order in merges([0] * nthreads):
        t = fresh(False)
        pos = [0] * nthreads
        res = [[] for _ in range(nthreads)]
        for i in order:
            res[i].append(repr(_apply(t, threads[i][pos[i]])))
            pos[i] += 1
        outcomes.add((tuple(tuple(r) for r in res), _state(t)))

    def one(policy, label):
        t = fresh(True)
        sc = sched.Scheduler(policy, watchdog_s=30.0)
        sc.run([(lambda ops=ops: tuple(repr(_apply(t, op)) for op in ops)) for ops in threads])
        ctx.count("thread_schedules")
        g = guards.pop()
        g.refresh(force=True)
        if g.replaced:
            ctx.count("locks_replaced_by_object", g.replaced)
        w = dict(desc, policy=label, choices=sc.choices[:300])
        if sc.stuck:
            ctx.inconclusive("a schedule hit the wall-clock watchdog (not a verdict)")
            return sc
        if sc.deadlock:
            ctx.violation("deadlock-under-threads", "lifecycle deadlocked: %s" % sc.deadlock, w)
            return sc
        if any(e is not None for e in sc.errors):
            ctx.violation("raises-under-threads", "lifecycle call raised %r" % ([e for e in sc.errors if e is not None][0],), w)
            return sc
        got = (tuple(sc.results), _state(t))
        ctx.count("thread_outcomes_judged")
        if got not in outcomes:
            ctx.violation("not-sequentially-equivalent", "results %s / final (phase, length, ops, errors, renewals) %s cannot be produced by any sequential order of the calls" % got,
                          dict(w, sequential_outcomes=sorted(outcomes)[:5]))
        if sc.switch_while_other_inside:
            ctx.nontrivial(("threads", sc.trace_hash()))
        return sc

    base = one(sched.PreemptionPolicy({}), "pb(0)")
    N = max(base.step, 1)
    combos = [(s_, t_) for s_ in range(1, N + 1) for t_ in range(nthreads)]
    if len(combos) > 200:
        combos = rng.sample(combos, 200)
    for (s_, t_) in combos:
        one(sched.PreemptionPolicy({s_: t_}), "pb(1)@%d->%d" % (s_, t_))
    for i in range(60):
        one(sched.RandomPolicy(rng, (0.1, 0.3, 0.6)[i % 3]), "random")


if __name__ == "__main__":
    core.main(sys.modules[__name__])
