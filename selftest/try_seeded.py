#!/venv/bin/python
"""Confirm a red-team change and run the owning check against it.
  selftest/try_seeded.py --prop C09 --dir /tmp/rt-C09-out/1 [--save c09-1] [--tier quick] [--seed 0]
Steps (scratch copy of /repo under /var/tmp, removed afterwards): demo on the clean tree must exit 0; patch applies;
demo on the patched tree must exit non-zero; the repository's suite must still pass; then `./check PROP` against the
patched tree must exit 1 with a VIOLATION line. --save copies patch/demo/meta into /verif/seeded/<name>/ with the results."""
import argparse, json, os, shutil, subprocess, sys, tempfile

HERE = os.path.dirname(os.path.abspath(__file__))
VERIF = os.path.dirname(HERE)


def sh(cmd, **kw):
    return subprocess.run(cmd, capture_output=True, text=True, **kw)


def main():
    ap = argparse.ArgumentParser()
    ap.add_argument("--prop", required=True); ap.add_argument("--dir", required=True)
    ap.add_argument("--save"); ap.add_argument("--tier", default="quick"); ap.add_argument("--seed", default="0")
    ap.add_argument("--skip-tests", action="store_true"); ap.add_argument("--also", default="")
    a = ap.parse_args()
    d = tempfile.mkdtemp(prefix="operon-seed-", dir="/var/tmp")
    res = {"property": a.prop, "source": a.dir}
    try:
        for sub in ("operon_ai", "tests"):
            shutil.copytree(os.path.join("/repo", sub), os.path.join(d, sub), ignore=shutil.ignore_patterns("__pycache__"))
        shutil.copy("/repo/pyproject.toml", d)
        demo = os.path.join(a.dir, "demo.py")
        env = dict(os.environ, PYTHONPATH=d, PYTHONDONTWRITEBYTECODE="1")
        r = sh(["/venv/bin/python", demo], cwd="/var/tmp", env=env, timeout=300)
        res["demo_clean_rc"] = r.returncode
        p = sh(["patch", "-p1", "-s", "-i", os.path.join(a.dir, "patch.diff")], cwd=d)
        res["patch_applies"] = p.returncode == 0
        if p.returncode != 0:
            res["patch_error"] = (p.stdout + p.stderr)[-400:]
        else:
            r = sh(["/venv/bin/python", demo], cwd="/var/tmp", env=env, timeout=300)
            res["demo_patched_rc"] = r.returncode
            res["demo_patched_tail"] = (r.stdout + r.stderr)[-300:]
            if not a.skip_tests:
                t = sh(["/venv/bin/python", "-m", "pytest", "-q", "-p", "no:cacheprovider", "-n", "6", "tests"], cwd=d, env=env)
                res["tests_pass"] = t.returncode == 0
                res["tests_tail"] = t.stdout.strip().splitlines()[-1] if t.stdout.strip() else ""
            for prop in [a.prop] + [x for x in a.also.split(",") if x]:
                c = sh([os.path.join(VERIF, "check"), prop, "--tier", a.tier],
                       env=dict(os.environ, OPERON_REPO=d, VERIF_OUT=d, VERIF_SEED=a.seed))
                mech = [l.strip() for l in c.stdout.splitlines() if l.strip().startswith("mechanism=")]
                res["check_%s" % prop] = {"rc": c.returncode, "caught": c.returncode == 1 and "VIOLATION" in c.stdout, "mechanisms": [m[:200] for m in mech[:4]]}
                if c.returncode not in (0, 1):
                    res["check_%s" % prop]["tail"] = (c.stdout + c.stderr)[-600:]
    finally:
        shutil.rmtree(d, ignore_errors=True)
    ok = res.get("demo_clean_rc") == 0 and res.get("patch_applies") and res.get("demo_patched_rc", 0) != 0 and res.get("tests_pass", a.skip_tests)
    res["confirmed"] = bool(ok)
    print(json.dumps(res, indent=1))
    if a.save:
        out = os.path.join(VERIF, "seeded", a.save)
        os.makedirs(out, exist_ok=True)
        for f in ("patch.diff", "demo.py"):
            if os.path.abspath(os.path.join(a.dir, f)) != os.path.abspath(os.path.join(out, f)):
                shutil.copy(os.path.join(a.dir, f), out)
        meta = {}
        try:
            meta = json.load(open(os.path.join(a.dir, "meta.json")))
        except Exception:
            pass
        meta["breaks_property"] = a.prop
        newconf = {k: res.get(k) for k in ("demo_clean_rc", "demo_patched_rc", "tests_pass", "tests_tail", "confirmed")}
        if a.skip_tests and isinstance(meta.get("confirmation"), dict) and meta["confirmation"].get("tests_pass") is not None:
            newconf["tests_pass"], newconf["tests_tail"] = meta["confirmation"]["tests_pass"], meta["confirmation"].get("tests_tail")
            newconf["confirmed"] = bool(newconf["demo_clean_rc"] == 0 and newconf["demo_patched_rc"] and newconf["tests_pass"])
        meta["confirmation"] = newconf
        meta["what_was_run"] = "selftest/try_seeded.py --prop %s --dir <red-team output> --tier %s (scratch copy of /repo at %s; demo clean/patched, full suite patched, ./check %s against the patched tree)" % (
            a.prop, a.tier, sh(["git", "-C", "/repo", "rev-parse", "--short", "HEAD"]).stdout.strip(), a.prop)
        meta["check_result"] = {k: v for k, v in res.items() if k.startswith("check_")}
        json.dump(meta, open(os.path.join(out, "meta.json"), "w"), indent=1)


if __name__ == "__main__":
    main()
