#!/venv/bin/python
"""Re-base a stored patch (seeded change / refactoring) onto the current /repo HEAD after repository fixes moved its context.
  selftest/rebase_patch.py <dir with patch.diff> [...]
Finds the newest commit of /repo on which the patch applies cleanly, commits it there in a scratch clone and cherry-picks that commit
onto HEAD (a real three-way merge, so non-overlapping edits re-base automatically). On success the new diff replaces patch.diff (the
original is kept as patch.orig.diff) and meta.json gets a note; on a conflict nothing is changed and the directory is reported."""
import json, os, shutil, subprocess, sys, tempfile


def sh(cmd, cwd=None):
    return subprocess.run(cmd, cwd=cwd, capture_output=True, text=True)


def main():
    dirs = sys.argv[1:]
    scratch = tempfile.mkdtemp(prefix="operon-rebase-", dir="/var/tmp")
    try:
        sh(["git", "clone", "-q", "/repo", scratch + "/r"])
        r = scratch + "/r"
        sh(["git", "config", "user.email", "v@v"], r); sh(["git", "config", "user.name", "v"], r)
        head = sh(["git", "rev-parse", "HEAD"], r).stdout.strip()
        revs = sh(["git", "rev-list", "--max-count=60", "HEAD"], r).stdout.split()
        for d in dirs:
            p = os.path.abspath(os.path.join(d, "patch.diff"))
            sh(["git", "checkout", "-q", "-f", head], r); sh(["git", "clean", "-qfd"], r)
            if sh(["git", "apply", "--check", p], r).returncode == 0:
                print("%-40s applies to HEAD" % d)
                continue
            base = None
            for rev in revs[1:]:
                sh(["git", "checkout", "-q", "-f", rev], r)
                if sh(["git", "apply", "--check", p], r).returncode == 0:
                    base = rev
                    break
            if base is None:
                print("%-40s NO BASE FOUND" % d)
                continue
            sh(["git", "apply", p], r); sh(["git", "add", "-A"], r); sh(["git", "commit", "-qm", "seed"], r)
            seed = sh(["git", "rev-parse", "HEAD"], r).stdout.strip()
            sh(["git", "checkout", "-q", "-f", head], r)
            cp = sh(["git", "cherry-pick", "--no-commit", seed], r)
            if cp.returncode != 0:
                sh(["git", "cherry-pick", "--abort"], r); sh(["git", "reset", "-q", "--hard", head], r)
                print("%-40s CONFLICT (base %s)" % (d, base[:7]))
                continue
            new = sh(["git", "diff", "--cached", head], r).stdout
            sh(["git", "reset", "-q", "--hard", head], r)
            if not os.path.exists(os.path.join(d, "patch.orig.diff")):
                shutil.copy(p, os.path.join(d, "patch.orig.diff"))
            open(p, "w").write(new)
            mp = os.path.join(d, "meta.json")
            try:
                m = json.load(open(mp))
            except Exception:
                m = {}
            m["note"] = (m.get("note", "") + " " if m.get("note") else "") + "patch re-based (three-way) from %s onto %s after repository fixes; same change; original in patch.orig.diff" % (base[:7], head[:7])
            json.dump(m, open(mp, "w"), indent=1)
            print("%-40s re-based from %s" % (d, base[:7]))
    finally:
        shutil.rmtree(scratch, ignore_errors=True)


if __name__ == "__main__":
    main()
