#!/venv/bin/python
"""Monitor validation: apply each catalogued semantic mutant to a scratch copy of /repo and
confirm the owning property's check fires (exit 1 + VIOLATION). Scratch copies live under
/var/tmp and are removed immediately. Usage:
    selftest/run_mutants.py [--prop C07] [--only id] [--tier quick] [--tests] [--cross C05,C07] [-j 4]
"""
import argparse, json, os, shutil, subprocess, sys, tempfile
from concurrent.futures import ThreadPoolExecutor

HERE = os.path.dirname(os.path.abspath(__file__))
VERIF = os.path.dirname(HERE)
REPO = os.environ.get("OPERON_REPO_SRC", "/repo")


def load():
    muts = []
    d = os.path.join(HERE, "mutants")
    for fn in sorted(os.listdir(d)):
        if fn.endswith(".json"):
            for m in json.load(open(os.path.join(d, fn))):
                muts.append(m)
    return muts


def make_scratch(m):
    d = tempfile.mkdtemp(prefix="operon-mut-", dir="/var/tmp")
    shutil.copytree(os.path.join(REPO, "operon_ai"), os.path.join(d, "operon_ai"),
                    ignore=shutil.ignore_patterns("__pycache__"))
    edits = m["edits"] if "edits" in m else [m]
    for e in edits:
        p = os.path.join(d, e["file"])
        s = open(p).read()
        if s.count(e["old"]) != e.get("count", 1):
            shutil.rmtree(d, ignore_errors=True)
            raise SystemExit("mutant %s: %r occurs %d times in %s" % (m["id"], e["old"], s.count(e["old"]), e["file"]))
        s = s.replace(e["old"], e["new"])
        open(p, "w").write(s)
    return d


def run_one(m, args):
    d = make_scratch(m)
    res = {"id": m["id"], "property": m["property"]}
    try:
        env = dict(os.environ, OPERON_REPO=d, VERIF_OUT=d, VERIF_SEED=str(args.seed))
        if args.tests:
            shutil.copytree(os.path.join(REPO, "tests"), os.path.join(d, "tests"), ignore=shutil.ignore_patterns("__pycache__"))
            shutil.copy(os.path.join(REPO, "pyproject.toml"), d)
            t = subprocess.run(["/venv/bin/python", "-m", "pytest", "-q", "-p", "no:cacheprovider", "-n", "6", "-x", "tests"],
                               cwd=d, env=dict(os.environ, PYTHONPATH=d), capture_output=True, text=True)
            res["tests"] = "pass" if t.returncode == 0 else "FAIL: " + t.stdout[-300:]
        props = [m["property"]] + ([p for p in args.cross.split(",") if p and p != m["property"]] if args.cross else [])
        for prop in props:
            r = subprocess.run([os.path.join(VERIF, "check"), prop, "--tier", args.tier], env=env,
                               capture_output=True, text=True)
            viol = [l for l in r.stdout.splitlines() if l.startswith("VIOLATION")]
            mech = [l.strip() for l in r.stdout.splitlines() if l.strip().startswith("mechanism=")]
            res[prop] = {"rc": r.returncode, "violation": bool(viol), "mech": mech[:3]}
            if r.returncode not in (0, 1):
                res[prop]["tail"] = r.stdout[-500:] + r.stderr[-300:]
    finally:
        shutil.rmtree(d, ignore_errors=True)
    return res


def main():
    ap = argparse.ArgumentParser()
    ap.add_argument("--prop"); ap.add_argument("--only"); ap.add_argument("--tier", default="quick")
    ap.add_argument("--tests", action="store_true"); ap.add_argument("--cross", default="")
    ap.add_argument("-j", type=int, default=3); ap.add_argument("--seed", type=int, default=0)
    args = ap.parse_args()
    muts = [m for m in load() if (not args.prop or m["property"] in args.prop.split(",")) and (not args.only or m["id"] in args.only.split(","))]
    bad = 0
    with ThreadPoolExecutor(args.j) as ex:
        for res in ex.map(lambda m: run_one(m, args), muts):
            own = res[res["property"]]
            caught = own["rc"] == 1 and own["violation"]
            status = "CAUGHT" if caught else "MISSED(rc=%s)" % own["rc"]
            if not caught:
                bad += 1
            extra = ""
            for k, v in res.items():
                if k.startswith("C") and k != res["property"] and v["rc"] != 0:
                    extra += " cross:%s rc=%s" % (k, v["rc"])
            print("%-34s %-5s %-14s %s%s %s" % (res["id"], res["property"], status, "; ".join(own["mech"])[:150], extra,
                                              ("tests=" + res["tests"]) if "tests" in res else ""), flush=True)
            if "tail" in own:
                print("    ", own["tail"].replace("\n", "\n     "))
    print("%d mutants, %d missed" % (len(muts), bad))
    sys.exit(1 if bad else 0)


if __name__ == "__main__":
    main()
