#!/bin/bash
# selftest/eval_round.sh <suffix> <src-prefix> CNN...  : confirm + evaluate the red-team outputs <src-prefix>CNN-out, save as seeded/cNN-<suffix>
# (at most 7 at a time: each ./check already uses 8-14 shard processes)
suffix=$1; pre=$2; shift 2
cd "$(dirname "$0")/.."
printf '%s\n' "$@" | xargs -P 7 -I{} bash -c 'p={}; n=$(echo $p | tr C c); selftest/try_seeded.py --prop $p --dir '"$pre"'$p-out --save $n-'"$suffix"' --tier quick > /var/tmp/try-$p-'"$suffix"'.log 2>&1'
for p in "$@"; do n=$(echo $p | tr C c); /venv/bin/python - <<PY
import json
try:
    d=json.load(open('seeded/$n-$suffix/meta.json')); c=d.get('confirmation',{}); r=d.get('check_result',{}).get('check_$p',{})
    print('$p', 'confirmed' if c.get('confirmed') else 'NOT-CONFIRMED %s'%c, 'CAUGHT' if r.get('caught') else 'MISSED rc=%s'%r.get('rc'), (r.get('mechanisms') or [''])[0][:110])
except Exception as e: print('$p', 'no result', e)
PY
done
