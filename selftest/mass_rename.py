#!/venv/bin/python
"""Mechanical soundness stressor: rename EVERY private (single leading underscore) attribute / method / module-level name that the given
source files define, consistently across the whole package, in a scratch copy; run the repository's suite (must stay green) and then the
listed checks, which must stay silent.   selftest/mass_rename.py --files operon_ai/state/telomere.py --props C09"""
import argparse, json, os, re, shutil, subprocess, sys, tempfile
HERE = os.path.dirname(os.path.abspath(__file__)); VERIF = os.path.dirname(HERE)


def main():
    ap = argparse.ArgumentParser(); ap.add_argument("--files", required=True); ap.add_argument("--props", required=True); ap.add_argument("--keep", action="store_true")
    a = ap.parse_args()
    d = tempfile.mkdtemp(prefix="operon-mr-", dir="/var/tmp")
    try:
        for sub in ("operon_ai", "tests"):
            shutil.copytree(os.path.join("/repo", sub), os.path.join(d, sub), ignore=shutil.ignore_patterns("__pycache__"))
        shutil.copy("/repo/pyproject.toml", d)
        names = set()
        for f in a.files.split(","):
            src = open(os.path.join(d, f)).read()
            names |= set(re.findall(r"\bself\.(_[a-zA-Z][A-Za-z0-9_]*)\b", src))
            names |= set(re.findall(r"\bdef (_[a-zA-Z][A-Za-z0-9_]*)\(", src))
            names |= set(re.findall(r"^(_[a-zA-Z][A-Za-z0-9_]*)\s*[:=]", src, flags=re.M))
        names = {n for n in names if not n.startswith("__")}
        # names that tests / examples touch directly are part of the de-facto interface: leave them
        used_outside = set()
        for root in ("tests",):
            for dp, _, fs in os.walk(os.path.join(d, root)):
                for fn in fs:
                    if fn.endswith(".py"):
                        t = open(os.path.join(dp, fn)).read()
                        used_outside |= {n for n in names if re.search(r"\b%s\b" % re.escape(n), t)}
        for dp, _, fs in os.walk("/repo/examples"):
            for fn in fs:
                if fn.endswith(".py"):
                    t = open(os.path.join(dp, fn)).read()
                    used_outside |= {n for n in names if re.search(r"\b%s\b" % re.escape(n), t)}
        names -= used_outside
        # dataclass fields with leading underscore appear in repr/eq: leave those too (declared as `_x: type` at class level with field())
        pat = {n: re.compile(r"(?<![A-Za-z0-9_])%s(?![A-Za-z0-9_])" % re.escape(n)) for n in names}
        changed = 0
        for dp, _, fs in os.walk(os.path.join(d, "operon_ai")):
            for fn in fs:
                if fn.endswith(".py"):
                    p = os.path.join(dp, fn)
                    t = open(p).read(); o = t
                    for n, rx in pat.items():
                        t = rx.sub("_rn" + n, t)
                    if t != o:
                        open(p, "w").write(t); changed += 1
        env = dict(os.environ, PYTHONPATH=d)
        t = subprocess.run(["/venv/bin/python", "-m", "pytest", "-q", "-p", "no:cacheprovider", "-n", "6", "tests"], cwd=d, env=env, capture_output=True, text=True)
        res = {"renamed": sorted(names), "kept_because_used_by_tests_or_examples": sorted(used_outside), "files_changed": changed,
               "tests_pass": t.returncode == 0, "tests_tail": t.stdout.strip().splitlines()[-1] if t.stdout.strip() else ""}
        if t.returncode == 0:
            for prop in a.props.split(","):
                c = subprocess.run([os.path.join(VERIF, "check"), prop, "--tier", "quick"], env=dict(os.environ, OPERON_REPO=d, VERIF_OUT=d), capture_output=True, text=True)
                lines = [l.strip()[:300] for l in c.stdout.splitlines() if l.startswith(("VIOLATION", "INCONCLUSIVE")) or l.strip().startswith("mechanism=")]
                res[prop] = {"rc": c.returncode, "lines": lines[:5]}
        print(json.dumps(res, indent=1))
    finally:
        if not a.keep:
            shutil.rmtree(d, ignore_errors=True)


if __name__ == "__main__":
    main()
