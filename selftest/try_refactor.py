#!/venv/bin/python
"""Soundness validation: a behaviour-preserving refactoring of /repo must leave every check silent (exit 0).
  selftest/try_refactor.py --dir /tmp/rf-C07-out/1 --props C07,C08 [--save rf07-1]
Scratch copy of /repo under /var/tmp (removed afterwards): patch applies, the repository's suite passes, then each listed check's quick tier
is run against the refactored tree and must exit 0 without VIOLATION / INCONCLUSIVE lines."""
import argparse, json, os, shutil, subprocess, sys, tempfile
HERE = os.path.dirname(os.path.abspath(__file__)); VERIF = os.path.dirname(HERE)


def sh(cmd, **kw):
    return subprocess.run(cmd, capture_output=True, text=True, **kw)


def main():
    ap = argparse.ArgumentParser()
    ap.add_argument("--dir", required=True); ap.add_argument("--props", required=True); ap.add_argument("--save"); ap.add_argument("--seed", default="0")
    ap.add_argument("--skip-tests", action="store_true")
    a = ap.parse_args()
    d = tempfile.mkdtemp(prefix="operon-rf-", dir="/var/tmp")
    res = {"source": a.dir}
    try:
        for sub in ("operon_ai", "tests"):
            shutil.copytree(os.path.join("/repo", sub), os.path.join(d, sub), ignore=shutil.ignore_patterns("__pycache__"))
        shutil.copy("/repo/pyproject.toml", d)
        p = sh(["patch", "-p1", "-s", "-i", os.path.join(a.dir, "patch.diff")], cwd=d)
        res["patch_applies"] = p.returncode == 0
        if p.returncode == 0:
            if not a.skip_tests:
                t = sh(["/venv/bin/python", "-m", "pytest", "-q", "-p", "no:cacheprovider", "-n", "6", "tests"], cwd=d, env=dict(os.environ, PYTHONPATH=d))
                res["tests_pass"] = t.returncode == 0
            for prop in a.props.split(","):
                c = sh([os.path.join(VERIF, "check"), prop, "--tier", "quick"], env=dict(os.environ, OPERON_REPO=d, VERIF_OUT=d, VERIF_SEED=a.seed))
                lines = [l.strip()[:260] for l in c.stdout.splitlines() if l.startswith(("VIOLATION", "INCONCLUSIVE")) or l.strip().startswith("mechanism=")]
                res[prop] = {"rc": c.returncode, "silent": c.returncode == 0, "lines": lines[:6]}
                if c.returncode not in (0, 1):
                    res[prop]["tail"] = (c.stdout + c.stderr)[-700:]
        else:
            res["patch_error"] = (p.stdout + p.stderr)[-300:]
    finally:
        shutil.rmtree(d, ignore_errors=True)
    print(json.dumps(res, indent=1))
    if a.save:
        out = os.path.join(VERIF, "selftest", "refactors", a.save)
        os.makedirs(out, exist_ok=True)
        if os.path.abspath(a.dir) != os.path.abspath(out):
            shutil.copy(os.path.join(a.dir, "patch.diff"), out)
        meta = {}
        try:
            meta = json.load(open(os.path.join(a.dir, "meta.json")))
        except Exception:
            pass
        meta["result"] = res
        json.dump(meta, open(os.path.join(out, "meta.json"), "w"), indent=1)


if __name__ == "__main__":
    main()
